"""Statement execution: per-path forward symbolic execution with loop cutting."""
from __future__ import annotations

import ast

import z3

from . import loader, sym
from .calls import _is_doc, _walk_own
from .state import NORMAL, EngineError, Outcome, Raised, State
from .sym import (
    BOOL,
    CONST,
    INT,
    NONE,
    STR,
    SV,
    Const,
    TConst,
    TDict,
    TInt,
    TList,
    TNone,
    TOpt,
    TRef,
    TTuple,
    mk_const,
    sort_of,
)


class StmtMixin:
    # ------------------------------------------------------------------
    def ev_top(self, e, st: State):
        """Evaluate an expression at statement level, draining exceptional forks."""
        self.exc_collect.append([])
        try:
            r = self.ev(e, st)
        finally:
            extra = self.exc_collect.pop()
        return r + extra

    def ev_cond_top(self, e, st: State):
        self.exc_collect.append([])
        try:
            r = self.ev_cond(e, st)
        finally:
            extra = self.exc_collect.pop()
        return r + extra

    def exec_block(self, stmts, st: State):
        results = [(st, NORMAL)]
        for s in stmts:
            if _is_doc(s):
                continue
            nxt = []
            for state, oc in results:
                if oc.kind != "normal":
                    nxt.append((state, oc))
                    continue
                self.steps += 1
                if self.steps > self.max_steps:
                    raise EngineError("path explosion: step budget exceeded")
                nxt.extend(self.exec_stmt(s, state))
            results = nxt
        return results

    def exec_stmt(self, s, st: State):
        m = getattr(self, "ex_" + type(s).__name__, None)
        if m is None:
            raise EngineError(f"unsupported statement {type(s).__name__} (line {s.lineno})")
        return m(s, st)

    def _raise(self, st, r: Raised):
        return (st, Outcome("raise", r))

    # ------------------------------------------------------------------
    def ex_Pass(self, s, st):
        return [(st, NORMAL)]

    def ex_Expr(self, s, st):
        if isinstance(s.value, (ast.Yield, ast.YieldFrom)):
            return self.ex_yield(s.value, st)
        out = []
        for s2, v in self.ev_top(s.value, st):
            out.append(self._raise(s2, v) if isinstance(v, Raised) else (s2, NORMAL))
        return out

    def ex_yield(self, y, st):
        out = []
        if isinstance(y, ast.YieldFrom):
            for s2, v in self.ev_top(y.value, st):
                if isinstance(v, Raised):
                    out.append(self._raise(s2, v))
                    continue
                cur = s2.store.get("_yielded")
                v = self.reify(v) if isinstance(v.t, TConst) else v
                if not isinstance(v.t, TList):
                    raise EngineError("yield from non-sequence")
                s2.store["_yielded"] = self.list_concat(cur, v)
                out.append((s2, NORMAL))
            return out
        for s2, v in self.ev_top(y.value, st):
            if isinstance(v, Raised):
                out.append(self._raise(s2, v))
                continue
            yt = s2.frame.yield_type
            if yt is not None:
                v = self.coerce_to(v, yt, s2, y)
            else:
                v = self.reify(v)
            cur = s2.store.get("_yielded")
            s2.store["_yielded"] = self.list_append(cur, v)
            out.append((s2, NORMAL))
        return out

    def list_append(self, lst: SV | None, v: SV) -> SV:
        if lst is None or lst.t.elem is None:
            return SV(TList(v.t), z3.Unit(v.z))
        try:
            v = sym.coerce(v, lst.t.elem)
        except TypeError as err:
            raise EngineError(f"list element type: {err}")
        return SV(lst.t, z3.Concat(lst.z, z3.Unit(v.z)))

    def list_concat(self, a: SV | None, b: SV) -> SV:
        if a is None or a.t.elem is None:
            return b
        if b.t.elem is None:
            return a
        if a.t != b.t:
            raise EngineError(f"list concat types {a.t!r} {b.t!r}")
        return SV(a.t, z3.Concat(a.z, b.z))

    # ------------------------------------------------------------------
    def ex_Assign(self, s, st):
        out = []
        for s2, v in self.ev_top(s.value, st):
            if isinstance(v, Raised):
                out.append(self._raise(s2, v))
                continue
            rs = [(s2, NORMAL)]
            for tgt in s.targets:
                nxt = []
                for s3, oc in rs:
                    if oc.kind != "normal":
                        nxt.append((s3, oc))
                    else:
                        nxt.extend(self.assign(tgt, v, s3))
                rs = nxt
            out.extend(rs)
        return out

    def ex_AnnAssign(self, s, st):
        if s.value is None:
            return [(st, NORMAL)]
        out = []
        for s2, v in self.ev_top(s.value, st):
            if isinstance(v, Raised):
                out.append(self._raise(s2, v))
                continue
            t = loader.parse_type(s.annotation, s2.frame.module, self.pseudo_classes())
            if t is not None and not (isinstance(v.t, TConst) and v.const is None and not isinstance(v.extra, list)):
                try:
                    if not (isinstance(t, TDict)):
                        v = sym.coerce(self.reify(v), t)
                except (TypeError, EngineError):
                    pass
            out.extend(self.assign(s.target, v, s2))
        return out

    def ex_AugAssign(self, s, st):
        load = _as_load(s.target)
        out = []
        for s2, vals in self.ev_list_top([load, s.value], st):
            if isinstance(vals, Raised):
                out.append(self._raise(s2, vals))
                continue
            a, b = vals
            if isinstance(a.t, TRef) and isinstance(s.op, ast.Add):
                # obj += x on an object: its class's __iadd__ (assumed external contract; the result is the object itself)
                for s3, m in self.getattr(a, "__iadd__", s2, s):
                    for s4, r in self.apply(m, [b], {}, s3, s):
                        out.append(self._raise(s4, r) if isinstance(r, Raised) else (s4, NORMAL))
                continue
            if isinstance(a.t, TList) and isinstance(s.op, ast.Add):
                b = self.reify(b) if isinstance(b.t, TConst) else b
                r = self.list_concat(a if a.t.elem is not None else None, b)
            else:
                r = self.binop(s.op, a, b, s2, s)
            out.extend(self.assign(s.target, r, s2))
        return out

    def ev_list_top(self, exprs, st):
        self.exc_collect.append([])
        try:
            r = self.ev_list(exprs, st)
        finally:
            extra = self.exc_collect.pop()
        return r + extra

    def assign(self, tgt, v: SV, st: State):
        if isinstance(tgt, ast.Name):
            declared = self.local_type(st, tgt.id)
            if isinstance(declared, TDict) and isinstance(v.t, TConst) and v.const is not None and v.const.v == {}:
                # `x = {}` for a local whose dict type the contract declares: the empty dict of that type
                v = SV(declared, None, extra={
                    "keys": z3.Empty(z3.SeqSort(sym.sort_of(declared.k))),
                    "has": z3.K(sym.sort_of(declared.k), z3.BoolVal(False)),
                    "val": sym.fresh(declared, "emptydict").extra["val"],
                })
                st.store[tgt.id] = v
                return [(st, NORMAL)]
            if declared is not None and not (isinstance(v.t, TConst) and v.const is None and not isinstance(v.extra, list)):
                try:
                    v = sym.coerce(self.reify(v), declared)
                except TypeError as err:
                    raise EngineError(f"assignment to {tgt.id}: {err}")
            st.store[tgt.id] = v
            return [(st, NORMAL)]
        if isinstance(tgt, (ast.Tuple, ast.List)) and len(tgt.elts) == 2 and isinstance(tgt.elts[1], ast.Starred):
            # head, *rest = xs  for a list value: head = xs[0] (ValueError on an empty list), rest = xs[1:]
            v2 = self.reify(v) if isinstance(v.t, TConst) else v
            if not isinstance(v2.t, TList) or v2.t.elem is None:
                raise EngineError(f"starred unpacking of {v2.t!r}")
            n = z3.Length(v2.z)
            self.partial(st, n >= 1, "ValueError", tgt)
            head = SV(v2.t.elem, v2.z[0])
            rest = SV(v2.t, z3.SubSeq(v2.z, 1, n - 1))
            st.assume(z3.Length(rest.z) == n - 1)
            out = []
            for s2, oc in self.assign(tgt.elts[0], head, st):
                if oc.kind != "normal":
                    out.append((s2, oc))
                    continue
                out.extend(self.assign(tgt.elts[1].value, rest, s2))
            return out
        if isinstance(tgt, (ast.Tuple, ast.List)):
            items = self.tuple_items(v)
            if items is None:
                if isinstance(v.t, TList) and v.t.elem is not None:
                    # unpacking a list of statically unknown length
                    n = len(tgt.elts)
                    self.exc_collect.append([])
                    self.partial(st, z3.Length(v.z) == n, "ValueError", tgt, f"unpack {ast.unparse(tgt)}")
                    extra = self.exc_collect.pop()
                    items = [SV(v.t.elem, v.z[j]) for j in range(n)]
                    rs = [(st, NORMAL)]
                    for t2, it in zip(tgt.elts, items):
                        rs = [r for s3, oc in rs for r in (self.assign(t2, it, s3) if oc.kind == "normal" else [(s3, oc)])]
                    return rs + [self._raise(s3, r) for s3, r in extra]
                raise EngineError(f"unpacking of {v.t!r}")
            if len(items) != len(tgt.elts):
                raise EngineError("unpack arity")
            rs = [(st, NORMAL)]
            for t2, it in zip(tgt.elts, items):
                rs = [r for s3, oc in rs for r in (self.assign(t2, it, s3) if oc.kind == "normal" else [(s3, oc)])]
            return rs
        if isinstance(tgt, ast.Attribute):
            out = []
            for s2, base in self.ev_top(tgt.value, st):
                if isinstance(base, Raised):
                    out.append(self._raise(s2, base))
                    continue
                bt = base.t
                if isinstance(bt, TOpt):
                    self.exc_collect.append([])
                    self.partial(s2, z3.Not(sym.opt_is_none(base)), "AttributeError", tgt)
                    out.extend(self._raise(a, b) for a, b in self.exc_collect.pop())
                    base = sym.opt_val(base)
                    bt = base.t
                if not isinstance(bt, TRef):
                    raise EngineError(f"attribute store on {bt!r}")
                fd = self.field_decl(bt.cls, tgt.attr)
                if fd is None:
                    raise EngineError(f"store to undeclared field {bt.cls}.{tgt.attr}")
                key, ft = fd
                try:
                    v2 = v if isinstance(ft, TDict) and isinstance(v.t, TDict) else sym.coerce(self.reify(v), ft)
                except TypeError as err:
                    raise EngineError(f"store {bt.cls}.{tgt.attr}: {err}")
                self.check_frame(s2, base, key, tgt)
                s2.store_field(base.z, key, v2)
                out.append((s2, NORMAL))
            return out
        if isinstance(tgt, ast.Subscript):
            return self.assign_subscript(tgt, v, st)
        raise EngineError(f"assignment target {type(tgt).__name__}")

    def assign_subscript(self, tgt, v: SV, st: State):
        """d[k] = v on a modelled dict held in a local variable or an object field."""
        out = []
        lv = tgt.value
        if not isinstance(lv, (ast.Name, ast.Attribute)):
            raise EngineError(f"subscript store on a temporary: {ast.unparse(tgt)}")
        if isinstance(lv, ast.Attribute):
            # obj.attr[key] = value where the class has an assumed `ext:<Class>.<attr>.__setitem__` (the attribute's own content
            # is not modelled, e.g. the option_spec table of a docutils directive class)
            handled = None
            for s2, vals in self.ev_list_top([lv.value, tgt.slice], st.copy()):
                if isinstance(vals, Raised):
                    continue
                base = vals[0]
                bt = base.t.inner if isinstance(base.t, TOpt) else base.t
                if isinstance(bt, TRef):
                    handled = self.reg.funs.get(f"ext:{bt.cls}.{lv.attr}.__setitem__")
                break
            if handled is not None:
                for s2, vals in self.ev_list_top([lv.value, tgt.slice], st):
                    if isinstance(vals, Raised):
                        out.append(self._raise(s2, vals))
                        continue
                    base = vals[0]
                    if isinstance(base.t, TOpt):
                        self.partial(s2, z3.Not(sym.opt_is_none(base)), "AttributeError", tgt)
                        base = sym.opt_val(base)
                    for s4, r in self.call_contract(handled, [base, vals[1], v], {}, s2, tgt, params=handled.types.get("__params__")):
                        out.append(self._raise(s4, r) if isinstance(r, Raised) else (s4, NORMAL))
                return out
        for s2, vals in self.ev_list_top([_as_load(lv), tgt.slice], st):
            if isinstance(vals, Raised):
                out.append(self._raise(s2, vals))
                continue
            d, k = vals
            if isinstance(d.t, TRef) or (isinstance(d.t, TOpt) and isinstance(d.t.inner, TRef)):
                # obj[key] = v on an object: its class's __setitem__ (contracted repo method or assumed external one)
                # an assumed contract may be given per literal key: ext:<Class>.__setitem__[<key>]
                dt = d.t.inner if isinstance(d.t, TOpt) else d.t
                keyed = None
                if k.const is not None and isinstance(k.const.v, str):
                    keyed = self.reg.funs.get(f"ext:{dt.cls}.__setitem__[{k.const.v}]")
                if keyed is not None:
                    for s4, r in self.call_contract(keyed, [d, k, v], {}, s2, tgt, params=keyed.types.get("__params__")):
                        out.append(self._raise(s4, r) if isinstance(r, Raised) else (s4, NORMAL))
                    continue
                for s3, m in self.getattr(d, "__setitem__", s2, tgt):
                    for s4, r in self.apply(m, [k, v], {}, s3, tgt):
                        out.append(self._raise(s4, r) if isinstance(r, Raised) else (s4, NORMAL))
                continue
            if isinstance(d.t, TConst) and d.const is not None and d.const.v == {}:
                raise EngineError("store into an untyped empty dict literal (declare the variable's type)")
            if not isinstance(d.t, TDict):
                raise EngineError(f"subscript store on {d.t!r}")
            k = sym.coerce(self.reify(k), d.t.k)
            v2 = sym.coerce(self.reify(v), d.t.v)
            has, val, keys = d.extra["has"], d.extra["val"], d.extra["keys"]
            new = SV(d.t, None, extra={
                "has": z3.Store(has, k.z, z3.BoolVal(True)),
                "val": z3.Store(val, k.z, v2.z),
                "keys": z3.If(z3.Select(has, k.z), keys, z3.Concat(keys, z3.Unit(k.z))),
            })
            from .loops import _as_store

            out.extend(self.assign(_as_store(lv), new, s2))
        return out

    def local_type(self, st: State, name: str):
        fr = st.frame
        spec = fr.spec
        if spec is not None and name in spec.types:
            return self.parse_type_str(spec.types[name], fr.module)
        ann = self.local_annotations(fr).get(name)
        if ann is not None:
            t = loader.parse_type(ann, fr.module, self.pseudo_classes())
            if isinstance(t, TDict):
                return None
            return t
        return None

    def local_annotations(self, fr):
        if not hasattr(fr, "_anns"):
            anns = {}
            for n in _walk_own(fr.node):
                if isinstance(n, ast.AnnAssign) and isinstance(n.target, ast.Name):
                    anns[n.target.id] = n.annotation
            fr._anns = anns
        return fr._anns

    # ------------------------------------------------------------------
    def ex_Return(self, s, st):
        if s.value is None:
            return [(st, Outcome("return", mk_const(None)))]
        out = []
        for s2, v in self.ev_top(s.value, st):
            if isinstance(v, Raised):
                out.append(self._raise(s2, v))
            else:
                out.append((s2, Outcome("return", v)))
        return out

    def ex_Break(self, s, st):
        return [(st, Outcome("break"))]

    def ex_Continue(self, s, st):
        return [(st, Outcome("continue"))]

    def ex_If(self, s, st):
        out = []
        for s2, c in self.ev_cond_top(s.test, st):
            if isinstance(c, Raised):
                out.append(self._raise(s2, c))
                continue
            cv = sym.lsimp(c)
            if z3.is_true(cv):
                out.extend(self.exec_block(s.body, s2))
                continue
            if z3.is_false(cv):
                out.extend(self.exec_block(s.orelse, s2))
                continue
            sa = s2.copy()
            sa.assume(c)
            sb = s2
            sb.assume(z3.Not(c))
            if self.feasible(sa):
                sa.trace.append(f"L{s.lineno}:T")
                out.extend(self.exec_block(s.body, sa))
            if self.feasible(sb):
                sb.trace.append(f"L{s.lineno}:F")
                out.extend(self.exec_block(s.orelse, sb))
        return out

    def ex_Assert(self, s, st):
        out = []
        for s2, c in self.ev_cond_top(s.test, st):
            if isinstance(c, Raised):
                out.append(self._raise(s2, c))
                continue
            self.exc_collect.append([])
            self.partial(s2, c, "AssertionError", s.test, f"assert {ast.unparse(s.test)}")
            out.extend(self._raise(a, b) for a, b in self.exc_collect.pop())
            out.append((s2, NORMAL))
        return out

    def ex_Raise(self, s, st):
        if s.exc is None:
            cur = st.ghost.get("current_exc")
            if cur is None:
                raise EngineError("bare raise outside handler")
            return [self._raise(st, cur)]
        out = []
        for s2, v in self.ev_top(s.exc, st):
            if isinstance(v, Raised):
                out.append(self._raise(s2, v))
                continue
            rs = [(s2, v)]
            if s.cause is not None:
                rs = []
                for s3, c in self.ev_top(s.cause, s2):
                    rs.append((s3, c if isinstance(c, Raised) else v))
            for s3, v3 in rs:
                if isinstance(v3, Raised):
                    out.append(self._raise(s3, v3))
                    continue
                out.append(self._raise(s3, self.as_raised(v3, s3, s)))
        return out

    def as_raised(self, v: SV, st, node) -> Raised:
        if isinstance(v.t, TRef):
            # exact dynamic class when the object was just constructed in this frame, else upper bound
            return Raised(v.t.cls, v, exact=False, node=node, origin=f"{v.t.cls}@raise L{node.lineno}")
        ex = v.extra
        if isinstance(v.t, TConst) and isinstance(ex, tuple) and ex[0] in ("excclass",):
            ref = self.alloc_exception(st, ex[1])
            return Raised(ex[1], ref, exact=True, node=node, origin=f"{ex[1]}@raise L{node.lineno}")
        if isinstance(v.t, TConst) and isinstance(ex, tuple) and ex[0] == "class":
            ref = st.new_ref(ex[2])
            return Raised(ex[2], ref, exact=True, node=node, origin=f"{ex[2]}@raise L{node.lineno}")
        raise EngineError(f"raise of {v.t!r}")

    # ------------------------------------------------------------------
    def ex_Try(self, s, st):
        caught = set()
        for h in s.handlers:
            caught.update(self.handler_classes(h, st))
        st.handlers.append(caught)
        body_out = self.exec_block(s.body, st)
        results = []
        for s2, oc in body_out:
            s2.handlers.pop()
            if oc.kind == "raise":
                results.extend(self.dispatch_handlers(s, s2, oc.value))
            elif oc.kind == "normal" and s.orelse:
                results.extend(self.exec_block(s.orelse, s2))
            else:
                results.append((s2, oc))
        if s.finalbody:
            fin = []
            for s2, oc in results:
                for s3, oc2 in self.exec_block(s.finalbody, s2):
                    fin.append((s3, oc if oc2.kind == "normal" else oc2))
            results = fin
        return results

    def handler_classes(self, h, st):
        if h.type is None:
            return ["BaseException"]
        nodes = h.type.elts if isinstance(h.type, ast.Tuple) else [h.type]
        return [ast.unparse(n).split(".")[-1] for n in nodes]

    def dispatch_handlers(self, s, st: State, r: Raised):
        out = []
        remaining = st  # state in which the exception is still propagating
        for h in s.handlers:
            hcls = self.handler_classes(h, st)
            if any(self.exc_subclass(r.cls, c) for c in hcls):
                out.extend(self.run_handler(h, remaining, r))
                return out
            narrower = [c for c in hcls if self.exc_subclass(c, r.cls)]
            if narrower and not r.exact:
                # the dynamic class may or may not be caught here: explore both
                s_c = remaining.copy()
                out.extend(self.run_handler(h, s_c, Raised(narrower[0], r.ref, False, r.node, r.origin)))
        out.append(self._raise(remaining, r))
        return out

    def run_handler(self, h, st: State, r: Raised):
        if h.name:
            if r.ref is None:
                r.ref = self.alloc_exception(st, r.cls)
            st.store[h.name] = SV(TRef(r.cls), r.ref.z)
        prev = st.ghost.get("current_exc")
        st.ghost["current_exc"] = r
        out = []
        for s2, oc in self.exec_block(h.body, st):
            s2.ghost["current_exc"] = prev
            out.append((s2, oc))
        return out

    # ------------------------------------------------------------------
    def ex_With(self, s, st):
        if len(s.items) != 1:
            # nested items: desugar left to right
            inner = ast.With(items=s.items[1:], body=s.body)
            ast.copy_location(inner, s)
            outer = ast.With(items=s.items[:1], body=[inner])
            ast.copy_location(outer, s)
            return self.ex_With(outer, st)
        item = s.items[0]
        ce = item.context_expr
        if isinstance(ce, ast.Call) and isinstance(ce.func, ast.Name) and ce.func.id == "suppress":
            classes = [ast.unparse(a).split(".")[-1] for a in ce.args]
            st.handlers.append(set(classes))
            out = []
            for s2, oc in self.exec_block(s.body, st):
                s2.handlers.pop()
                if oc.kind == "raise" and any(self.exc_subclass(oc.value.cls, c) for c in classes):
                    out.append((s2, NORMAL))
                elif oc.kind == "raise" and not oc.value.exact and any(
                    self.exc_subclass(c, oc.value.cls) for c in classes
                ):
                    out.append((s2.copy(), NORMAL))
                    out.append((s2, oc))
                else:
                    out.append((s2, oc))
            return out
        return self.with_contextmanager(s, item, st)

    def with_contextmanager(self, s, item, st):
        """`with cm(args):` for a generator-based @contextmanager defined in the repo (a method or a local function):
        the statements before its single top-level `yield` run on entry, those after it on every exit that is not an
        exception (CPython: without try/finally in the generator, an exception thrown in at `yield` skips them)."""
        ce = item.context_expr
        if item.optional_vars is not None or not isinstance(ce, ast.Call):
            raise EngineError(f"with-statement over {ast.unparse(ce)} is not modelled")
        out = []
        for s1, fv in self.ev_top(ce.func, st):
            if isinstance(fv, Raised):
                out.append(self._raise(s1, fv))
                continue
            ex = fv.extra if isinstance(fv.t, TConst) else None
            if isinstance(ex, tuple) and ex[0] == "method":
                modn, qual = ex[1].split(":")
                mod = loader.load(modn, self.repo)
                fnode, selfv, closure = mod.functions[qual], ex[2], {}
            elif isinstance(ex, tuple) and ex[0] == "localfunc":
                mod, qual, fnode, selfv, closure = s1.frame.module, f"{s1.frame.qualname}.<locals>.{ex[1].name}", ex[1], None, dict(s1.store)
            else:
                raise EngineError(f"with-statement over {ast.unparse(ce)} is not modelled")
            if not any("contextmanager" in ast.unparse(d) for d in fnode.decorator_list):
                raise EngineError(f"with-statement over a non-contextmanager: {ast.unparse(ce)}")
            body = [b for b in fnode.body if not _is_doc(b)]
            ys = [i for i, b in enumerate(body) if isinstance(b, ast.Expr) and isinstance(b.value, ast.Yield)]
            inner = [n for b in body for n in ast.walk(b) if isinstance(n, (ast.Yield, ast.YieldFrom))]
            if len(ys) != 1 or len(inner) != 1 or any(isinstance(b, ast.Try) for b in body):
                raise EngineError("contextmanager must have exactly one top-level `yield` and no try block")
            pre, post = body[: ys[0]], body[ys[0] + 1:]
            for s2, vals in self.ev_list_top(list(ce.args) + [k.value for k in ce.keywords], s1):
                if isinstance(vals, Raised):
                    out.append(self._raise(s2, vals))
                    continue
                args = ([selfv] if selfv is not None else []) + vals[: len(ce.args)]
                kwargs = {k.arg: v for k, v in zip(ce.keywords, vals[len(ce.args):])}
                bound, _ = self.bind_params(fnode, args, kwargs, s2, qual)
                caller = (s2.store, s2.frame)
                from .calls import Frame

                cm_frame = Frame(mod, qual, fnode, None)

                def run_in_cm(state, stmts, cm_store):
                    saved = (state.store, state.frame)
                    state.store, state.frame = cm_store, cm_frame
                    res = []
                    for s3, oc in self.exec_block(stmts, state):
                        cm_after = s3.store
                        s3.store, s3.frame = (saved[0] if s3 is state else dict(saved[0])), saved[1]
                        res.append((s3, oc, cm_after))
                    return res

                cm_store0 = dict(closure)
                cm_store0.update(bound)
                for s3, oc, cm_store in run_in_cm(s2, pre, cm_store0):
                    if oc.kind != "normal":
                        if oc.kind == "raise":
                            out.append((s3, oc))
                            continue
                        raise EngineError("contextmanager returned before its yield")
                    for s4, oc2 in self.exec_block(s.body, s3):
                        if oc2.kind == "raise":
                            out.append((s4, oc2))
                            continue
                        for s5, oc3, _cs in run_in_cm(s4, post, dict(cm_store)):
                            out.append((s5, oc2 if oc3.kind == "normal" else oc3))
        return out

    # ------------------------------------------------------------------
    def ex_FunctionDef(self, s, st):
        st.store[s.name] = SV(CONST, None, None, extra=("localfunc", s, None))  # (kind, FunctionDef, -)
        return [(st, NORMAL)]

    def ex_Import(self, s, st):
        return [(st, NORMAL)]

    def ex_ImportFrom(self, s, st):
        for a in s.names:
            st.store[a.asname or a.name] = SV(CONST, None, None, extra=("external", f"{s.module}.{a.name}"))
        return [(st, NORMAL)]

    def ex_Delete(self, s, st):
        """`del obj[key]` on an object whose class has an assumed `ext:<Class>.__delitem__[key]` (an attribute dictionary)."""
        if len(s.targets) != 1 or not isinstance(s.targets[0], ast.Subscript):
            raise EngineError("del statement")
        tgt = s.targets[0]
        out = []
        for s2, vals in self.ev_list_top([tgt.value, tgt.slice], st):
            if isinstance(vals, Raised):
                out.append(self._raise(s2, vals))
                continue
            base, k = vals
            if isinstance(base.t, TOpt):
                self.partial(s2, z3.Not(sym.opt_is_none(base)), "TypeError", tgt)
                base = sym.opt_val(base)
            keyed = None
            if isinstance(base.t, TRef) and k.const is not None and isinstance(k.const.v, str):
                keyed = self.reg.funs.get(f"ext:{base.t.cls}.__delitem__[{k.const.v}]")
            if keyed is None:
                raise EngineError(f"del statement on {ast.unparse(tgt)} (no assumed __delitem__ for that key)")
            for s4, r in self.call_contract(keyed, [base, k], {}, s2, tgt, params=keyed.types.get("__params__")):
                out.append(self._raise(s4, r) if isinstance(r, Raised) else (s4, NORMAL))
        return out

    def ex_Global(self, s, st):
        raise EngineError("global statement")

    # ------------------------------------------------------------------
    def check_frame(self, st: State, base, key: str, node):
        """Frame obligation: a heap write (direct, inlined or by a callee) must hit a location
        listed in the `modifies` clause of the function under verification, or a fresh object."""
        if self.root_spec is None or st.spec:
            return
        spec = self.root_spec
        if "*" in spec.modifies:
            return
        ref = base.z if isinstance(base, SV) else base
        if ref is None:
            # a callee that may write the field of any object: the root must allow the whole field too
            ok = any(k == key and r0 is None for r0, k, t in self.root_modifies)
            self.oblige(st, "frame", f"{key} (whole field)", z3.BoolVal(ok), node)
            return
        # stores into objects allocated by this call are always allowed
        allowed = [ref >= self.entry_alloc]
        for r0, k, t in self.root_modifies:
            if k == key:
                allowed.append(z3.BoolVal(True) if r0 is None else ref == r0)
        self.oblige(st, "frame", f"{key}", st.cond(z3.Or(*allowed)), node)


def _as_load(t):
    t2 = ast.parse(ast.unparse(t), mode="eval").body
    ast.copy_location(t2, t)
    for n in ast.walk(t2):
        if not hasattr(n, "lineno"):
            ast.copy_location(n, t)
    return t2
