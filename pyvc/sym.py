"""Symbolic values, types and z3 sorts for the pyvc VC generator.

Python values are modelled as (type, z3 term):

  int            Int (mathematical, exact for Python)
  bool           Bool
  str / bytes    Seq(Int)  (code points / byte values)
  None           no term
  T | None       datatype Opt<T> = none | some(val)
  tuple[...]     datatype Tup<...> = mk(f0, ..)
  list[T]        Seq(sort(T))
  object         Int reference into a field-indexed heap of Arrays
  Any            uninterpreted sort U
"""
from __future__ import annotations

import z3

IntSeq = z3.SeqSort(z3.IntSort())
USort = z3.DeclareSort("U")


class T:
    """Base of engine types."""

    def __eq__(self, o):
        return type(self) is type(o) and self.key() == o.key()

    def __hash__(self):
        return hash((type(self).__name__, self.key()))

    def key(self):
        return ()

    def __repr__(self):
        return type(self).__name__[1:].lower()


class TInt(T):
    pass


class TBool(T):
    pass


class TStr(T):
    pass


class TBytes(T):
    pass


class TNone(T):
    pass


class TAny(T):
    pass


class TList(T):
    def __init__(self, elem):
        self.elem = elem  # may be None for an untyped empty list

    def key(self):
        return (self.elem,)

    def __repr__(self):
        return f"list[{self.elem!r}]"


class TTuple(T):
    def __init__(self, elems):
        self.elems = tuple(elems)

    def key(self):
        return self.elems

    def __repr__(self):
        return f"tuple[{', '.join(map(repr, self.elems))}]"


class TOpt(T):
    def __init__(self, inner):
        self.inner = inner

    def key(self):
        return (self.inner,)

    def __repr__(self):
        return f"{self.inner!r}|None"


class TRef(T):
    def __init__(self, cls):
        self.cls = cls  # class name (str)

    def key(self):
        return (self.cls,)

    def __repr__(self):
        return f"ref[{self.cls}]"


class TBoxDict(TRef):
    """A dict held INSIDE another container (value of a dict, element of a list): a reference to an immutable mapping
    object whose content is the dict-typed heap field `__mapping__`; unboxed to a TDict value where it is used as a dict.
    Read-only: the engine never creates or updates such an object."""

    def __init__(self, inner):
        super().__init__(f"Map<{inner.k!r};{inner.v!r}>")
        self.inner = inner


class TDict(T):
    """SMT-level dict: composite (keys Seq(K), has Array(K,Bool), val Array(K,V))."""

    def __init__(self, k, v):
        self.k, self.v = k, v

    def key(self):
        return (self.k, self.v)

    def __repr__(self):
        return f"dict[{self.k!r}, {self.v!r}]"


class TSet(T):
    """SMT-level set / opaque membership container: Array(K,Bool)."""

    def __init__(self, k):
        self.k = k

    def key(self):
        return (self.k,)

    def __repr__(self):
        return f"set[{self.k!r}]"


class TConst(T):
    """A Python-level constant (literal dict/tuple/str table, class object, function)."""

    pass


INT, BOOL, STR, BYTES, NONE, ANY, CONST = (
    TInt(),
    TBool(),
    TStr(),
    TBytes(),
    TNone(),
    TAny(),
    TConst(),
)

_dt_cache: dict = {}
_dt_ops: dict = {}  # datatype sort id -> (none value, some constructor, is-none recognizer, value accessor)


def sort_of(t: T):
    if isinstance(t, TInt):
        return z3.IntSort()
    if isinstance(t, TBool):
        return z3.BoolSort()
    if isinstance(t, (TStr, TBytes)):
        return IntSeq
    if isinstance(t, TRef):
        return z3.IntSort()
    if isinstance(t, TAny):
        return USort
    if isinstance(t, TList):
        if t.elem is None:
            raise TypeError("untyped list has no sort")
        return z3.SeqSort(sort_of(t.elem))
    if isinstance(t, TSet):
        return z3.ArraySort(sort_of(t.k), z3.BoolSort())
    if isinstance(t, TOpt):
        k = ("opt", t.inner)
        if k not in _dt_cache:
            # constructor / accessor names are unique per datatype: SMT-LIB text with two datatypes that both declare
            # `none` is ambiguous for every command-line solver (z3py itself does not mind)
            m = _mangle(t.inner)
            d = z3.Datatype(f"Opt_{m}")
            d.declare(f"none_{m}")
            d.declare(f"some_{m}", (f"val_{m}", sort_of(t.inner)))
            dt = d.create()
            _dt_cache[k] = dt
            _dt_ops[dt.get_id()] = (dt.constructor(0)(), dt.constructor(1), dt.recognizer(0), dt.accessor(1, 0))
        return _dt_cache[k]
    if isinstance(t, TTuple):
        k = ("tup", t.elems)
        if k not in _dt_cache:
            m = "_".join(_mangle(e) for e in t.elems)
            d = z3.Datatype(f"Tup_{m}")
            d.declare(f"mk_{m}", *[(f"f{i}_{m}", sort_of(e)) for i, e in enumerate(t.elems)])
            _dt_cache[k] = d.create()
        return _dt_cache[k]
    if isinstance(t, TNone):
        return z3.BoolSort()  # placeholder: the single value
    raise TypeError(f"no sort for {t!r}")


def _mangle(t: T) -> str:
    return (
        repr(t)
        .replace("[", "_")
        .replace("]", "")
        .replace(", ", "_")
        .replace("|", "or")
        .replace(" ", "")
    )


class SV:
    """A symbolic value."""

    __slots__ = ("t", "z", "const", "char", "extra")

    def __init__(self, t, z, const=None, char=None, extra=None):
        self.t = t
        self.z = z
        self.const = const  # python constant value when statically known (wrapped)
        self.char = char  # z3 Int when the value is known to be a 1-char str Unit(char)
        self.extra = extra  # composite payload (dict parts etc.)

    def __repr__(self):
        return f"SV({self.t!r}, {self.z})"


class Const:
    """Wrapper so that a known constant None/False/0 is distinguishable from 'unknown'."""

    __slots__ = ("v",)

    def __init__(self, v):
        self.v = v


_fresh_n = [0]


def fresh_name(base: str) -> str:
    _fresh_n[0] += 1
    return f"{base}!{_fresh_n[0]}"


def reset_fresh():
    _fresh_n[0] = 0


def str_lit(s) -> z3.ExprRef:
    if isinstance(s, bytes):
        cps = list(s)
    else:
        cps = [ord(c) for c in s]
    if not cps:
        return z3.Empty(IntSeq)
    if len(cps) == 1:
        return z3.Unit(z3.IntVal(cps[0]))
    return z3.Concat(*[z3.Unit(z3.IntVal(c)) for c in cps])


def mk_const(v) -> SV:
    """Symbolic value of a Python constant."""
    if v is None:
        return SV(NONE, None, Const(None))
    if isinstance(v, bool):
        return SV(BOOL, z3.BoolVal(v), Const(v))
    if isinstance(v, int):
        return SV(INT, z3.IntVal(v), Const(v))
    if isinstance(v, str):
        return SV(
            STR,
            str_lit(v),
            Const(v),
            char=z3.IntVal(ord(v)) if len(v) == 1 else None,
        )
    if isinstance(v, bytes):
        return SV(BYTES, str_lit(v), Const(v))
    return SV(CONST, None, Const(v))


def fresh(t: T, base: str = "v") -> SV:
    if isinstance(t, TNone):
        return mk_const(None)
    if isinstance(t, TDict):
        ks, vs = sort_of(t.k), sort_of(t.v)
        n = fresh_name(base)
        return SV(
            t,
            None,
            extra={
                "keys": z3.Const(n + ".keys", z3.SeqSort(ks)),
                "has": z3.Const(n + ".has", z3.ArraySort(ks, z3.BoolSort())),
                "val": z3.Const(n + ".val", z3.ArraySort(ks, vs)),
            },
        )
    return SV(t, z3.Const(fresh_name(base), sort_of(t)))


def opt_none(t: TOpt) -> SV:
    return SV(t, _dt_ops[sort_of(t).get_id()][0])


def opt_some(t: TOpt, v: SV) -> SV:
    return SV(t, _dt_ops[sort_of(t).get_id()][1](v.z))


def opt_is_none(v: SV):
    s = sort_of(v.t)
    return _dt_ops[s.get_id()][2](v.z)


def opt_val(v: SV) -> SV:
    s = sort_of(v.t)
    return SV(v.t.inner, _dt_ops[s.get_id()][3](v.z))


def tup_mk(vals) -> SV:
    t = TTuple([v.t for v in vals])
    return SV(t, sort_of(t).constructor(0)(*[v.z for v in vals]))


def tup_get(v: SV, i: int) -> SV:
    s = sort_of(v.t)
    return SV(v.t.elems[i], s.accessor(0, i)(v.z))


def coerce(v: SV, t: T) -> SV:
    """Coerce a value to a (compatible) declared type; raises TypeError otherwise."""
    if v.t == t:
        return v
    if isinstance(t, TAny):
        return v
    if isinstance(t, TOpt):
        if isinstance(v.t, TNone):
            return opt_none(t)
        if isinstance(v.t, TOpt):
            if v.t.inner == t.inner:
                return v
            raise TypeError(f"cannot coerce {v.t!r} to {t!r}")
        return opt_some(t, coerce(v, t.inner))
    if isinstance(t, TList) and isinstance(v.t, TList):
        if v.t.elem is None:
            return SV(t, z3.Empty(sort_of(t)))
        if t.elem is None:
            return v
        if isinstance(t.elem, TRef) and isinstance(v.t.elem, TRef):
            return SV(t, v.z)
    if isinstance(t, TRef) and isinstance(v.t, TRef):
        return SV(t, v.z)  # subclass relation is checked dynamically via class tags
    if isinstance(t, TTuple) and isinstance(v.t, TTuple) and len(t.elems) == len(v.t.elems):
        return tup_mk([coerce(tup_get(v, i), e) for i, e in enumerate(t.elems)])
    if isinstance(t, (TStr, TBytes)) and isinstance(v.t, (TStr, TBytes)):
        return SV(t, v.z, v.const, v.char)
    if isinstance(t, TInt) and isinstance(v.t, TBool):
        return SV(INT, z3.If(v.z, z3.IntVal(1), z3.IntVal(0)))
    raise TypeError(f"cannot coerce {v.t!r} to {t!r}")


def _has_seq(t, budget=[0]):
    """Does the term contain sequence operations (which z3.simplify expands into nth_i/nth_u ites)?"""
    seen = set()
    todo = [t]
    n = 0
    while todo:
        x = todo.pop()
        if x.get_id() in seen:
            continue
        seen.add(x.get_id())
        n += 1
        if n > 400:
            return True
        if z3.is_app(x):
            k = x.decl().kind()
            if k in (z3.Z3_OP_SEQ_NTH, z3.Z3_OP_SEQ_EXTRACT, z3.Z3_OP_SEQ_AT, z3.Z3_OP_SEQ_INDEX):
                return True
            todo.extend(x.children())
        elif z3.is_quantifier(x):
            return True
    return False


def lsimp(t):
    """Light simplification: only terms free of sequence indexing are rewritten."""
    if z3.is_int_value(t) or z3.is_true(t) or z3.is_false(t):
        return t
    if _has_seq(t):
        return t
    return z3.simplify(t)
