"""The engine: verifies one function of /repo against its sidecar contract."""
from __future__ import annotations

import ast
import time

import z3

from . import loader, sym
from .builtins import BuiltinMixin
from .calls import CallMixin, Frame, _is_doc
from .comp import CompMixin
from .contract_apply import ContractMixin
from .expr import ExprMixin
from .loops import LoopMixin
from .spec import REG, FunSpec
from .state import NORMAL, EngineError, Outcome, Raised, State
from .stmt import StmtMixin
from .sym import SV, TConst, TDict, TList, TNone, TOpt, TRef, mk_const


class Obligation:
    __slots__ = ("oid", "kind", "label", "pc", "goal", "line", "trace", "status", "time", "backend", "model")

    def __init__(self, oid, kind, label, pc, goal, line, trace):
        self.oid, self.kind, self.label = oid, kind, label
        self.pc, self.goal, self.line, self.trace = pc, goal, line, trace
        self.status = None
        self.time = 0.0
        self.backend = None
        self.model = None


def _skolemize(g):
    """forall q. P(q) as a goal  ->  P(q0) for a fresh constant q0 (equivalent for validity)."""
    if z3.is_quantifier(g) and g.is_forall() and g.num_vars() == 1 and g.var_sort(0) == z3.IntSort():
        q0 = z3.Int(sym.fresh_name("sk." + g.var_name(0).split("!")[0]))
        inner, qs = _skolemize(z3.substitute_vars(g.body(), q0))  # nested universal quantifiers too
        return inner, [q0] + qs
    if z3.is_implies(g):
        a, b = g.children()
        b2, qs = _skolemize(b)
        return (z3.Implies(a, b2), qs) if qs else (g, [])
    if z3.is_and(g):
        parts, qs = [], []
        for c in g.children():
            c2, q = _skolemize(c)
            parts.append(c2)
            qs.extend(q)
        return (z3.And(*parts), qs) if qs else (g, [])
    return g, []


def _has_pos_forall(h, depth):
    """Does h have a universally quantified (one Int variable) part in a positive position (under And / Implies)?"""
    if z3.is_quantifier(h):
        return h.is_forall() and h.num_vars() == 1 and h.var_sort(0) == z3.IntSort()
    if depth > 3:
        return False
    if z3.is_implies(h):
        return _has_pos_forall(h.children()[1], depth + 1)
    if z3.is_and(h):
        return any(_has_pos_forall(c, depth + 1) for c in h.children())
    return False


def _instances(h, skolems, depth):
    """All instances of a (possibly nested) universally quantified fact at the given constants (positive positions)."""
    if z3.is_quantifier(h) and h.is_forall() and h.num_vars() == 1 and h.var_sort(0) == z3.IntSort() and depth < 3:
        return z3.And(*[_instances(z3.substitute_vars(h.body(), q), skolems, depth + 1) for q in skolems])
    if z3.is_implies(h):
        a, b = h.children()
        return z3.Implies(a, _instances(b, skolems, depth))
    if z3.is_and(h):
        return z3.And(*[_instances(c, skolems, depth) for c in h.children()])
    return h


def _int_consts(exprs, limit=4000):
    seen, out, todo, n = set(), {}, list(exprs), 0
    while todo and n < limit:
        x = todo.pop()
        if x.get_id() in seen:
            continue
        seen.add(x.get_id())
        n += 1
        if z3.is_const(x) and x.decl().kind() == z3.Z3_OP_UNINTERPRETED and x.sort() == z3.IntSort():
            out[str(x)] = x
        elif z3.is_app(x):
            todo.extend(x.children())
        elif z3.is_quantifier(x):
            todo.append(x.body())
    return out


def _instantiate_exists(g, pc):
    """exists q. P(q) as a goal -> P(c1) or ... or P(cn) or exists q. P(q) for witness candidates c
    taken from the path condition (results of max/min, loop indices).  Equivalent, but gives the
    solver the obvious witnesses without quantifier instantiation."""
    if z3.is_quantifier(g) and g.is_exists() and g.num_vars() == 1 and g.var_sort(0) == z3.IntSort():
        cands = [c for name, c in sorted(_int_consts(pc).items())
                 if name.split("!")[0] in ("max", "min") or name.startswith("_i_")]
        inst = []
        for c in cands[:6]:
            inst.append(z3.substitute_vars(g.body(), c))
            if str(c).startswith("_i_"):
                inst.append(z3.substitute_vars(g.body(), c - 1))
        return z3.Or(*inst, g) if inst else g
    if z3.is_implies(g):
        a, b = g.children()
        return z3.Implies(a, _instantiate_exists(b, pc))
    if z3.is_and(g):
        return z3.And(*[_instantiate_exists(c, pc) for c in g.children()])
    return g


class Engine(ExprMixin, CallMixin, ContractMixin, BuiltinMixin, StmtMixin, LoopMixin, CompMixin):
    def __init__(self, reg=None, repo=None, ext_exc=None, feas_timeout_ms=300, max_steps=200000):
        self.reg = reg or REG
        self.repo = repo
        self.ext_exc = dict(self.reg.ext_exc)
        self.ext_exc.update(ext_exc or {})
        self.const_cache = {}
        self.class_ids = {}
        self.obligations: list[Obligation] = []
        self.undecided: list[tuple[str, str]] = []
        self.exc_collect = [[]]
        self.root_spec: FunSpec | None = None
        self.root_modifies = []
        self.entry_alloc = None
        self.entry_state = None
        self.root_measure = None
        self.steps = 0
        self.max_steps = max_steps
        self.feas_timeout_ms = feas_timeout_ms
        self._mods = []
        self.calls_seen = set()
        self.assumed_used = set()
        self.paths = 0
        self.dropped = None
        self.at_call_seen = set()
        self.loop_specs_used = set()
        self.covers = {}  # cover points reached (vacuity guard)
        self.feas_checks = 0
        self.param_syms = {}  # parameter name -> SV at entry (for countermodel concretisation)
        self.canaries = []  # (pc) of every normally returning path: `ensures False` must be refutable

    # ------------------------------------------------------------------
    def note_module(self, mod):
        if mod not in self._mods:
            self._mods.append(mod)

    def modules_in_use(self):
        return list(self._mods)

    def note_undecided(self, what, why):
        if (what, why) not in self.undecided:
            self.undecided.append((what, why))

    def oblige(self, st: State, kind: str, label: str, goal, node):
        if st.spec:
            return
        g = sym.lsimp(goal)
        oid = f"{self.root_spec.target}:{kind}[{label}]"
        pc = list(st.pc)
        g = _instantiate_exists(g, pc)
        g, skolems = _skolemize(g)
        # engine-side instantiation: every universally quantified fact of the path condition is instantiated
        #  - at the skolem constants of the goal (valid instances; the facts stay too),
        #  - at the loop indices the goal talks about
        # (instantiating also at the object references the goal reads through was tried: it makes every query heavier and
        #  the verdicts no more stable)
        terms = list(skolems)
        if skolems:
            terms += [c for name, c in sorted(_int_consts([g]).items()) if name.startswith("_i_")][:3]
            if getattr(self, "needs_shifted_instances", False):
                terms += [q - 1 for q in skolems]  # index-shifted instances (a general list.insert shifts by one)
            if getattr(self, "needs_plus_instances", False):
                terms += [q + 1 for q in skolems]  # (list.pop(0) shifts the other way)
        if terms:
            for h in list(pc):
                if _has_pos_forall(h, 0):
                    pc.append(_instances(h, terms, 0))
        ob = Obligation(oid, kind, label, pc, g, getattr(node, "lineno", 0), list(st.trace))
        if z3.is_true(g):
            ob.status, ob.backend = "unsat", "simplify"
        self.obligations.append(ob)

    def feasible(self, st: State) -> bool:
        self.feas_checks += 1
        s = z3.Solver()
        s.set("timeout", self.feas_timeout_ms)
        s.add(*st.pc)
        r = s.check()
        return r != z3.unsat

    def enumerate_values(self, st: State, term, limit=10):
        """All integer values of `term` consistent with the path condition (None if more than limit/unknown)."""
        tv = sym.lsimp(term)
        if z3.is_int_value(tv):
            return [tv.as_long()]
        s = z3.Solver()
        # generous: a timeout here would turn into "outside the subset" (undecided) and must not depend on machine load
        s.set("timeout", 60000)
        s.add(*st.pc)
        s.add(*st.guards)
        vals = []
        while True:
            r = s.check()
            if r == z3.unsat:
                return sorted(vals)
            if r != z3.sat or len(vals) >= limit:
                return None
            v = s.model().eval(term, model_completion=True)
            if not z3.is_int_value(v):
                return None
            vals.append(v.as_long())
            s.add(term != v)

    # ------------------------------------------------------------------
    def symbolic_param(self, st: State, name: str, t):
        v = sym.fresh(t, f"arg.{name}")
        self.assume_wellformed(st, v)
        return v

    def verify(self, target: str):
        """Symbolically execute `target` against its contract; fills self.obligations."""
        fs = self.reg.funs[target]
        mod = loader.load(fs.module, self.repo)
        self.note_module(mod)
        # repository modules that the contracts talk about (declared fields, contracted callees) are in scope as well
        for key in list(self.reg.fields) + list(self.reg.funs):
            modn = key.split(":")[0]
            if modn.startswith("myst_parser"):
                try:
                    self.note_module(loader.load(modn, self.repo))
                except Exception:  # noqa: BLE001 - a module that does not load is simply not in scope
                    pass
        fnode = mod.function(fs.qualname)
        self.root_spec = fs
        st = State()
        fr = Frame(mod, fs.qualname, fnode, fs)
        st.frame = fr
        fr.ret_type = self.ret_type(mod, fnode, fs)
        if fr.is_generator:
            if fr.ret_type is not None and isinstance(fr.ret_type, TList):
                fr.yield_type = fr.ret_type.elem
                st.store["_yielded"] = SV(fr.ret_type, z3.Empty(sym.sort_of(fr.ret_type)))
        # allocation frontier: every object reachable at entry is below alloc0
        alloc0 = z3.Int("alloc0")
        st.alloc = alloc0
        st.pc.append(alloc0 >= 0)
        ptypes = self.param_types(mod, fnode, fs, fr.cls)
        a = fnode.args
        if a.vararg or a.kwarg:
            used = {n.id for n in ast.walk(fnode) if isinstance(n, ast.Name)}
            if a.vararg or a.kwarg.arg in used:
                raise EngineError("*args/**kwargs in a function under contract")
            # an unused **kwargs catch-all has no influence on the body
        for p in a.posonlyargs + a.args + a.kwonlyargs:
            t = ptypes.get(p.arg)
            if t is None:
                raise EngineError(f"parameter {p.arg} of {target} has no usable type (add types= to the contract)")
            st.store[p.arg] = self.symbolic_param(st, p.arg, t)
            self.param_syms[p.arg] = st.store[p.arg]
        for gname, gtype in fs.ghost.items():
            st.store[gname] = self.symbolic_param(st, gname, self.parse_type_str(gtype, mod))
        self.entry_alloc = alloc0
        # requires
        for clause in fs.requires:
            st.assume_raw(self.spec_assume(clause, st))
        if not self.feasible(st):
            self.note_undecided("requires", "precondition is unsatisfiable (vacuous contract)")
        entry = st.copy()
        entry.pc = []
        self.entry_state = entry
        st.old = entry
        self.root_modifies = self.modifies_locs(fs, st.store, st, mod, fnode)
        if fs.decreases:
            self.root_measure = self.evs(ast.parse(fs.decreases, mode="eval").body, st).z
            self.oblige(st, "variant-bounded/recursion", fs.decreases, self.root_measure >= 0, fnode)
        body = [s for s in fnode.body if not _is_doc(s)]
        if fs.until:
            cut = [i for i, b in enumerate(body) if ast.unparse(b).startswith(fs.until)]
            if len(cut) != 1:
                raise EngineError(f"until={fs.until!r} matches {len(cut)} top-level statements of {target}")
            self.dropped = f"statements from line {body[cut[0]].lineno} on (`{fs.until}` ...) are outside this contract"
            body = body[: cut[0]]
        if getattr(fs, "since", None):
            start = [i for i, b in enumerate(body) if ast.unparse(b).startswith(fs.since)]
            if len(start) != 1:
                raise EngineError(f"since={fs.since!r} matches {len(start)} top-level statements of {target}")
            self.dropped = ((self.dropped + "; ") if getattr(self, "dropped", None) else "") + \
                f"statements before line {body[start[0]].lineno} (`{fs.since}` ...) are outside this contract: their results are ghost parameters"
            body = body[start[0]:]
        outcomes = self.exec_block(body, st)
        for s2, oc in outcomes:
            self.paths += 1
            self.finish_path(s2, oc, fs, fr, fnode, entry)
        for key, ls in fs.loops.items():
            if id(ls) not in self.loop_specs_used:
                self.note_undecided("loop-spec", f"loop contract {key!r} matches no loop reached in {target}")
        for key in fs.at_call:
            if key not in self.at_call_seen:
                self.note_undecided("at-call", f"no call `{key}` was reached in {target}")
        return self.obligations

    def finish_path(self, st: State, oc: Outcome, fs, fr, fnode, entry: State):
        if oc.kind == "raise":
            r: Raised = oc.value
            allowed = [k for k in fs.raises if self.exc_subclass(r.cls, k)]
            if not allowed:
                # the path must be infeasible
                self.oblige(st, "raises", f"{r.origin}", z3.BoolVal(False), r.node or fnode)
                return
            self.covers[f"raises:{allowed[0]}"] = True
            post = st.copy()
            post.store = dict(entry.store)
            if r.ref is not None:
                post.store["exc"] = SV(TRef(r.cls), r.ref.z)
            post.old = entry
            post.pc = st.pc
            for clause in fs.raises[allowed[0]]:
                self.oblige(st, f"raises-post/{allowed[0]}", clause, self.spec_bool(clause, post), r.node or fnode)
            self.history_obligations(entry, st, entry.store, fnode)
            return
        if oc.kind in ("break", "continue"):
            raise EngineError(f"{oc.kind} outside loop")
        value = oc.value if oc.kind == "return" else mk_const(None)
        if fr.is_generator:
            value = st.store.get("_yielded") or SV(TList(None), None)
        self.covers["return"] = True
        self.canaries.append(list(st.pc))
        rt = fr.ret_type
        at_cut = bool(fs.until) and oc.kind == "normal"  # fell through to the end of the prefix under contract
        if rt is not None and value is not None and not at_cut:
            try:
                value = self.coerce_to(value, rt, st, fnode)
            except (TypeError, EngineError) as err:
                if not isinstance(rt, TDict):
                    raise EngineError(f"return value of {fs.target}: {err}")
        post = st.copy()
        post.store = dict(entry.store)
        for gname in fs.ghost:
            pass
        post.store["result"] = value
        post.old = entry
        post.pc = st.pc
        post.ghost = dict(post.ghost)
        post.ghost["final_store"] = dict(st.store)  # at_return(x): the value of local x at the return point
        if at_cut and fs.cut_ensures is not None:
            for clause in fs.cut_ensures:
                self.oblige(st, "at-cut", clause, self.spec_bool(clause, post), fnode)
        else:
            for clause in fs.ensures:
                self.oblige(st, "post", clause, self.spec_bool(clause, post), fnode)
        if not fs.qualname.endswith("__init__"):
            self.history_obligations(entry, st, entry.store, fnode)

    # ------------------------------------------------------------------
    def spec_heap_reads(self, sf, arg_ts, st):
        """The heap fields the body of a recursive spec function reads: found once, by a dry evaluation of the body on symbolic
        arguments (nested calls of recursive spec functions contribute theirs)."""
        cache = self.__dict__.setdefault("_spec_reads", {})
        if sf.name in cache:
            return cache[sf.name]
        cache[sf.name] = []  # (recursion: the function's own calls inside the dry run add nothing new)
        if sf.abstract:
            return cache[sf.name]
        from .calls import _spec_body_expr

        body = [s for s in sf.node.body if not _is_doc(s)]
        expr = _spec_body_expr(body)
        s2 = st.copy()
        s2.store = {p: sym.fresh(t, "dry") for p, t in zip(sf.params, arg_ts)}
        for v in s2.store.values():
            self.assume_wellformed(s2, v)
        s2.spec = True
        s2.guards = []
        s2.ghost = dict(st.ghost)
        s2.ghost["load_log"] = {}
        s2.ghost["unfold_depth"] = 10 ** 6  # no unfolding inside the dry run
        s2.pc = list(st.pc)
        try:
            self.evs(expr, s2)
        except EngineError:
            raise
        reads = dict(s2.ghost["load_log"])
        # what the recursive spec functions called from the body read (their caches are filled by the dry run)
        for n in ast.walk(sf.node):
            if isinstance(n, ast.Call) and isinstance(n.func, ast.Name) and n.func.id in cache and n.func.id != sf.name:
                reads.update(dict(cache[n.func.id]))
        cache[sf.name] = sorted(reads.items(), key=lambda kv: kv[0])
        return cache[sf.name]

    def call_recursive_spec(self, sf, args, st):
        """Recursive spec function: uninterpreted symbol + one-step unfolding at this argument."""
        mod = st.frame.module
        arg_ts = [self.parse_type_str(t, mod) for t in sf.sig[0]]
        ret_t = self.parse_type_str(sf.sig[1], mod)
        # A spec function whose body reads the heap (L[i].backrefs ...) is a function of those field arrays too: the arrays of the
        # state it is evaluated in are extra arguments of the symbol, so two evaluations in different heaps are different terms.
        harrs = []
        for hk, ht in self.spec_heap_reads(sf, arg_ts, st):
            if isinstance(ht, TDict):
                from .state import _dict_parts

                harrs.extend(st._arr(f"{hk}#{p}", ps) for p, ps in _dict_parts(ht).items())
            else:
                harrs.append(st.field_array(hk, ht))
        f = z3.Function(f"spec.{sf.name}", *[sym.sort_of(t) for t in arg_ts], *[a.sort() for a in harrs], sym.sort_of(ret_t))
        # (spec mode is total: an Optional actual is read through its value; callers guard the None case)
        args = [sym.opt_val(a) if isinstance(a.t, TOpt) and not isinstance(t, TOpt) else a for a, t in zip(args, arg_ts)]
        cargs = [sym.coerce(self.reify(a), t) for a, t in zip(args, arg_ts)]
        app = f(*[a.z for a in cargs], *harrs)
        key = ("unfold", sf.name, tuple(str(sym.lsimp(a.z)) for a in cargs), tuple(a.get_id() for a in harrs))
        depth = st.ghost.get("unfold_depth", 0)
        opaque = self.root_spec is not None and sf.name in getattr(self.root_spec, "opaque", ())
        if not sf.abstract and not opaque and key not in st.ghost.get("unfolded", ()) and depth < sf.fuel:
            st.ghost["unfolded"] = set(st.ghost.get("unfolded", ())) | {key}
            from .calls import _spec_body_expr

            body = [s for s in sf.node.body if not _is_doc(s)]
            expr = _spec_body_expr(body)
            s2 = st.copy()
            s2.store = dict(zip(sf.params, cargs))
            s2.spec = True
            s2.guards = []
            s2.ghost = dict(st.ghost)
            s2.ghost["unfold_depth"] = depth + 1
            s2.pc = st.pc  # shared list: the unfolding instance must reach the caller's path condition
            val = sym.coerce(self.reify(self.evs(expr, s2)), ret_t)
            st.assume_raw(app == val.z)
        return SV(ret_t, app)
