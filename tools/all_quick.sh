#!/bin/bash
# usage: tools/all_quick.sh [ledger]    runs every quick check (optionally rewriting the obligation ledger), prints one line each
cd /verif
for p in $(python3 -c "import json; print(' '.join(c['property_id'] for c in json.load(open('MANIFEST.json'))['checks']))"); do
  if [ "$1" = "ledger" ]; then export PYVC_WRITE_LEDGER=1; fi
  out=$(./check $p quick 2>&1); rc=$?
  echo "$p rc=$rc $(echo "$out" | grep '^\[' | cut -c1-140) $(echo "$out" | grep -c KNOWN-FINDING) known"
  echo "$out" | grep -E "^VIOLATION|^UNDECIDED|^NOTE|ENGINE" | cut -c1-200
done
