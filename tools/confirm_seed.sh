#!/bin/bash
# usage: confirm_seed.sh <name> <patch.diff> <demo.py>   -> writes /tmp/confirm/<name>.result
# Confirms in a scratch worktree (outside /repo and /verif): patch applies to HEAD, demo FAILs with it and
# PASSes without it, and the pinned test suite has the same failing set as the baseline.
name=$1; patch=$2; demo=$3
wt=/tmp/confirm/wt-$name
mkdir -p /tmp/confirm
rm -rf "$wt"; git -C /repo worktree prune
git -C /repo worktree add --detach "$wt" HEAD >/dev/null 2>&1 || { echo "worktree failed" > /tmp/confirm/$name.result; exit 1; }
res=/tmp/confirm/$name.result; : > $res
cd "$wt"
PYTHONPATH=$wt /venv/bin/python "$demo" > /tmp/confirm/$name.demo_clean.out 2>&1; echo "demo_clean_exit=$?" >> $res
if git apply --check "$patch" 2>/dev/null; then echo "applies=yes" >> $res; else echo "applies=no" >> $res; fi
git apply "$patch"
PYTHONPATH=$wt /venv/bin/python "$demo" > /tmp/confirm/$name.demo_patched.out 2>&1; echo "demo_patched_exit=$?" >> $res
PYTHONPATH=$wt /venv/bin/python -m pytest -q -p no:cacheprovider --timeout=900 -x --co -q >/dev/null 2>&1
PYTHONPATH=$wt /venv/bin/python -m pytest -q -p no:cacheprovider --timeout=900 -rf 2>&1 | grep -E "^FAILED|passed|failed" | sed 's/ - .*//' | sort > /tmp/confirm/$name.tests.out
echo "tests_summary=$(grep -E 'passed|failed' /tmp/confirm/$name.tests.out | tail -1)" >> $res
echo "failed_set_sha=$(grep ^FAILED /tmp/confirm/$name.tests.out | sha1sum | cut -c1-12)" >> $res
cd /; git -C /repo worktree remove --force "$wt"
