"""Regenerate MANIFEST.json from checks/props.py (run with python3-vt from /verif)."""
import json
import os
import sys

ROOT = os.path.dirname(os.path.dirname(os.path.abspath(__file__)))
sys.path.insert(0, ROOT)
from checks import props  # noqa: E402

ALL = [f"C{i:02d}" for i in range(1, 21)]
m = json.load(open(os.path.join(ROOT, "MANIFEST.json")))
checks = []
for pid in ALL:
    cfg = props.PROPS.get(pid)
    if not cfg:
        continue
    checks.append({
        "property_id": pid,
        "quick_cmd": f"./check {pid} quick",
        "thorough_cmd": f"./check {pid} thorough",
        "evidence_file": f"/verif/evidence/{pid}.json",
        "replay_cmd_template": "./check replay {path}",
        # the deciding engine: the deductive verifier where a contract / flow pass exists, the bounded harness alone otherwise
        "engine": "pyvc" if (cfg.get("contracts") or cfg.get("flow")) else "harness",
        "level_claimed": {"category": cfg["level"], "text": cfg["explanation"], "design_ref": f"DESIGN.md §9 {pid}, §15"},
        "level_note": cfg.get("level_note") or ("Trusted: the pyvc VC generator and its encoding of Python (DESIGN §3.3), z3/cvc5; "
                                                 + "; ".join(cfg.get("trusted_base", []))),
        "technique": cfg.get("technique", "contract-based deductive verification (ast -> VCs -> z3/cvc5) of the real source; "
                             "bounded run-time stand-ins (labelled) where no contract is within reach"),
    })
m["checks"] = checks
claimed = {c["property_id"] for c in checks}
na_reasons = getattr(props, "NOT_APPLICABLE", {})
m["not_applicable"] = [{"property_id": p, "reason": na_reasons.get(p, "check not built yet (work in progress)")} for p in ALL if p not in claimed]
for e in m.get("engines", []):
    if e.get("name") == "pyvc":
        e["serves_properties"] = sorted(p for p in claimed if props.PROPS[p].get("contracts") or props.PROPS[p].get("flow"))
    else:
        e["serves_properties"] = sorted(claimed)
m["notes"] = ("one check per property (./check <id> quick|thorough); contracts under /verif/contracts, SMT-free contract passes under "
              "/verif/checks/flow_*.py, bounded stand-ins under /verif/harness; see DESIGN.md section 15 for the as-built record")
json.dump(m, open(os.path.join(ROOT, "MANIFEST.json"), "w"), indent=1)
print("claimed", sorted(claimed))
