#!/bin/bash
# usage: rebase_seed.sh <seed-id>   re-creates seeded/<id>/patch.diff against the current /repo HEAD (3-way), keeping patch.orig.diff
id=$1; d=/verif/seeded/$id
cd /repo || exit 3
[ -n "$(git status --porcelain --untracked-files=no)" ] && { echo "/repo not clean"; exit 3; }
if git apply --check $d/patch.diff 2>/dev/null; then echo "$id applies"; exit 0; fi
[ -f $d/patch.orig.diff ] || cp $d/patch.diff $d/patch.orig.diff
if git apply --3way $d/patch.orig.diff >/dev/null 2>&1 && [ -z "$(git diff --name-only --diff-filter=U)" ]; then
  git diff HEAD > $d/patch.diff; git reset -q; git checkout -- .; echo "$id rebased"
else
  git reset -q; git checkout -- .; echo "$id CONFLICT"
fi
