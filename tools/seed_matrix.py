"""Run every seeded change against the quick check of its property (and of related properties), record who catches it.
usage: python3 tools/seed_matrix.py [seed-id ...]      (applies each patch to /repo and reverts it afterwards)"""
import json, os, subprocess, sys, glob
ROOT = os.path.dirname(os.path.dirname(os.path.abspath(__file__)))
RELATED = {"C01a": ["C07"], "C02b": ["C05", "C03"], "C05b": ["C15"], "C04b": ["C08"], "C10b": ["C01"], "C15a": ["C13"], "C20a": ["C14"], "C03a": ["C09"], "C07b": ["C01"]}
ids = sys.argv[1:] or sorted(os.path.basename(p) for p in glob.glob(os.path.join(ROOT, "seeded", "C*")))
rows = []
for sid in ids:
    d = os.path.join(ROOT, "seeded", sid)
    meta = json.load(open(os.path.join(d, "meta.json")))
    props = [meta["property"]] + RELATED.get(sid, [])
    if subprocess.run(["git", "-C", "/repo", "status", "--porcelain", "--untracked-files=no"], capture_output=True, text=True).stdout.strip():
        print("/repo not clean"); sys.exit(3)
    if subprocess.run(["git", "-C", "/repo", "apply", os.path.join(d, "patch.diff")]).returncode != 0:
        rows.append((sid, "patch does not apply", {})); continue
    res = {}
    try:
        for p in props:
            r = subprocess.run([os.path.join(ROOT, "check"), p, "quick"], capture_output=True, text=True, cwd=ROOT)
            viol = [ln for ln in r.stdout.splitlines() if ln.startswith("VIOLATION")]
            how = "missed"
            if r.returncode == 1 and viol:
                names = [os.path.basename(v.split("replay=")[1].split()[0]) for v in viol]
                proof = [n for n in names if "-bounded-" not in n]
                how = ("obligation " + proof[0][:90]) if proof else ("bounded " + names[0][:90])
                if any(v.endswith("no-failing-input-found") for v in viol) and proof:
                    how += " (no-failing-input-found)"
            elif r.returncode == 2:
                how = "undecided"
            elif r.returncode not in (0, 1):
                how = f"crash rc={r.returncode}"
            res[p] = how
    finally:
        subprocess.run(["git", "-C", "/repo", "checkout", "--", "."])
    meta["caught_by"] = res
    json.dump(meta, open(os.path.join(d, "meta.json"), "w"), indent=1)
    rows.append((sid, meta["change"][:70], res))
    print(sid, res, flush=True)
with open(os.path.join(ROOT, "seeded", "MATRIX.md"), "w") as f:
    f.write("| seed | change | caught by (quick check) |\n|---|---|---|\n")
    for sid in sorted(os.path.basename(p) for p in glob.glob(os.path.join(ROOT, "seeded", "C*"))):
        m = json.load(open(os.path.join(ROOT, "seeded", sid, "meta.json")))
        cb = m.get("caught_by") or {}
        f.write(f"| {sid} | {m['change'][:90]} | " + "; ".join(f"{p}: {h}" for p, h in cb.items()) + " |\n")
