"""Seed matrix without touching /repo: every seeded change is applied in a scratch git worktree and the quick check of its
property (and of related properties) runs against that tree (PYVC_REPO) from a scratch copy of /verif, several seeds at a time.
usage: python3 tools/seed_matrix_par.py [-j N] [seed-id ...]
Scratch: /tmp/seedmx (removed at the end, worktrees included).  Results: seeded/<id>/meta.json (caught_by) and seeded/MATRIX.md."""
import concurrent.futures as cf
import glob
import json
import os
import queue
import shutil
import subprocess
import sys

ROOT = os.path.dirname(os.path.dirname(os.path.abspath(__file__)))
RELATED = {"C01a": ["C07"], "C02b": ["C05", "C03"], "C05b": ["C15"], "C04b": ["C08"], "C10b": ["C01"], "C15a": ["C13"], "C20a": ["C14"], "C03a": ["C09"], "C07b": ["C01"]}
SCRATCH = "/tmp/seedmx"


def sh(*a, **k):
    return subprocess.run(list(a), capture_output=True, text=True, **k)


def one(sid, pool):
    d = os.path.join(ROOT, "seeded", sid)
    meta = json.load(open(os.path.join(d, "meta.json")))
    props = [meta["property"]] + RELATED.get(sid, [])
    slot = pool.get()
    wt, vf = slot
    res = {}
    try:
        if sh("git", "-C", wt, "apply", os.path.join(d, "patch.diff")).returncode != 0:
            return sid, meta, {"-": "patch does not apply"}
        for p in props:
            r = sh(os.path.join(vf, "check"), p, "quick", cwd=vf, env=dict(os.environ, PYVC_REPO=wt))
            viol = [ln for ln in r.stdout.splitlines() if ln.startswith("VIOLATION")]
            how = "missed"
            if r.returncode == 1 and viol:
                names = [os.path.basename(v.split("replay=")[1].split()[0]) for v in viol]
                proof = [n for n in names if "-bounded-" not in n]
                how = ("obligation " + proof[0][:90]) if proof else ("bounded " + names[0][:90])
                if any(v.endswith("no-failing-input-found") for v in viol) and proof:
                    how += " (no-failing-input-found)"
            elif r.returncode == 2:
                how = "undecided"
            elif r.returncode not in (0, 1):
                how = f"crash rc={r.returncode}"
            res[p] = how
    finally:
        sh("git", "-C", wt, "checkout", "--", ".")
        sh("git", "-C", wt, "clean", "-fdq")
        pool.put(slot)
    return sid, meta, res


def main():
    args = sys.argv[1:]
    n = 3
    if args[:1] == ["-j"]:
        n = int(args[1])
        args = args[2:]
    ids = args or sorted(os.path.basename(p) for p in glob.glob(os.path.join(ROOT, "seeded", "C*")))
    shutil.rmtree(SCRATCH, ignore_errors=True)
    os.makedirs(SCRATCH)
    pool = queue.Queue()
    wts = []
    try:
        for i in range(n):
            wt, vf = os.path.join(SCRATCH, f"wt{i}"), os.path.join(SCRATCH, f"verif{i}")
            r = sh("git", "-C", "/repo", "worktree", "add", "--detach", wt, "HEAD")
            if r.returncode != 0:
                print(r.stderr)
                return 3
            wts.append(wt)
            sh("rsync", "-a", "--exclude", ".git", "--exclude", "replays", "--exclude", "tmp", "--exclude", "__pycache__", ROOT + "/", vf + "/")
            pool.put((wt, vf))
        with cf.ThreadPoolExecutor(n) as ex:
            for sid, meta, res in ex.map(lambda s: one(s, pool), ids):
                meta["caught_by"] = res
                json.dump(meta, open(os.path.join(ROOT, "seeded", sid, "meta.json"), "w"), indent=1)
                print(sid, res, flush=True)
    finally:
        for wt in wts:
            sh("git", "-C", "/repo", "worktree", "remove", "--force", wt)
        shutil.rmtree(SCRATCH, ignore_errors=True)
    with open(os.path.join(ROOT, "seeded", "MATRIX.md"), "w") as f:
        f.write("| seed | change | caught by (quick check) |\n|---|---|---|\n")
        for sid in sorted(os.path.basename(p) for p in glob.glob(os.path.join(ROOT, "seeded", "C*"))):
            m = json.load(open(os.path.join(ROOT, "seeded", sid, "meta.json")))
            cb = m.get("caught_by") or {}
            f.write(f"| {sid} | {m['change'][:90]} | " + "; ".join(f"{p}: {h}" for p, h in cb.items()) + " |\n")
    return 0


if __name__ == "__main__":
    sys.exit(main())
