#!/bin/bash
# usage: trymut.sh <patch.diff> <property-id>...   applies the patch to /repo, runs the quick checks, reverts.
patch=$(readlink -f "$1"); shift
cd /repo || exit 3
if [ -n "$(git status --porcelain --untracked-files=no)" ]; then echo "/repo not clean"; exit 3; fi
git apply "$patch" || { echo "patch does not apply"; exit 3; }
for id in "$@"; do
  (cd /verif && ./check $id quick 2>&1 | grep -E "VIOLATION|UNDECIDED|KNOWN|^\[" | cut -c1-400; echo "exit=${PIPESTATUS[0]}")
done
git -C /repo checkout -- .
